/-
  Lemmas about IN / NOT IN with NULLs and aggregates (Model/Subquery.lean).
-/
import PonyVerif.Model.Subquery
import PonyVerif.Lemmas.Translate
namespace PonyVerif.Model.Q

theorem foldl_or_tt_iff : ∀ (ks : List K), ks.foldl K.or .ff = .tt ↔ K.tt ∈ ks
  | [] => by simp
  | k :: ks => by
    have ih := foldl_or_tt_iff ks
    simp only [List.foldl_cons, K.ff_or, List.mem_cons]
    rw [foldl_or_init]
    cases k <;> cases h : ks.foldl K.or .ff <;> simp_all [K.or]

theorem foldl_or_ff_iff : ∀ (ks : List K), ks.foldl K.or .ff = .ff ↔ ∀ k ∈ ks, k = K.ff
  | [] => by simp
  | k :: ks => by
    have ih := foldl_or_ff_iff ks
    simp only [List.foldl_cons, K.ff_or, List.mem_cons]
    rw [foldl_or_init]
    cases k <;> cases h : ks.foldl K.or .ff <;> simp [K.or] <;> first | exact ih.1 h | (apply Classical.byContradiction; intro hc; have := ih.2 (fun k hk => Classical.byContradiction (fun hn => hc ⟨k, hk, hn⟩)); simp [h] at this)

theorem sqlIn_tt_iff (v : Int) (vals : List (Option Int)) : sqlIn (some v) vals = .tt ↔ some v ∈ vals := by
  simp only [sqlIn, foldl_or_tt_iff, List.mem_map]
  constructor
  · rintro ⟨x, hx, hk⟩
    cases x with
    | none => simp [eqK] at hk
    | some y => simp [eqK] at hk; subst hk; exact hx
  · intro h; exact ⟨some v, h, by simp [eqK]⟩

theorem sqlIn_guarded_two_valued (v : Int) (vals : List (Option Int)) (hnn : none ∉ vals) :
    sqlIn (some v) vals = K.ofBool (vals.contains (some v)) := by
  by_cases h : some v ∈ vals
  · have := (sqlIn_tt_iff v vals).2 h
    simp [this, h]
  · have hc : vals.contains (some v) = false := by simpa using h
    rw [hc]
    simp only [sqlIn, K.ofBool_false, foldl_or_ff_iff, List.mem_map]
    rintro k ⟨x, hx, rfl⟩
    cases x with
    | none => exact absurd hx hnn
    | some y =>
      have : y ≠ v := fun e => h (e ▸ hx)
      simp [eqK, Ne.symm this]

theorem filter_isSome_no_none (vals : List (Option Int)) : none ∉ vals.filter Option.isSome := by
  simp [List.mem_filter]

theorem contains_filter_isSome (v : Int) (vals : List (Option Int)) :
    (vals.filter Option.isSome).contains (some v) = vals.contains (some v) := by
  rw [Bool.eq_iff_iff]; simp [List.mem_filter]

theorem foldl_add_init (xs : List Int) (a : Int) : xs.foldl (· + ·) a = a + xs.foldl (· + ·) 0 := by
  induction xs generalizing a with
  | nil => simp
  | cons x xs ih => simp only [List.foldl_cons]; rw [ih, ih (0 + x)]; omega

theorem foldl_min_le (xs : List Int) (a : Int) : xs.foldl min a ≤ a ∧ (∀ x ∈ xs, xs.foldl min a ≤ x) ∧ (xs.foldl min a = a ∨ xs.foldl min a ∈ xs) := by
  induction xs generalizing a with
  | nil => simp
  | cons y ys ih =>
    obtain ⟨h1, h2, h3⟩ := ih (min a y)
    simp only [List.foldl_cons, List.mem_cons]
    refine ⟨by omega, ?_, ?_⟩
    · rintro x (rfl | hx)
      · omega
      · exact h2 x hx
    · rcases h3 with h3 | h3
      · rw [h3]; rcases Int.le_total a y with h | h
        · left; omega
        · right; left; omega
      · right; right; exact h3

theorem foldl_max_ge (xs : List Int) (a : Int) : a ≤ xs.foldl max a ∧ (∀ x ∈ xs, x ≤ xs.foldl max a) ∧ (xs.foldl max a = a ∨ xs.foldl max a ∈ xs) := by
  induction xs generalizing a with
  | nil => simp
  | cons y ys ih =>
    obtain ⟨h1, h2, h3⟩ := ih (max a y)
    simp only [List.foldl_cons, List.mem_cons]
    refine ⟨by omega, ?_, ?_⟩
    · rintro x (rfl | hx)
      · omega
      · exact h2 x hx
    · rcases h3 with h3 | h3
      · rw [h3]; rcases Int.le_total a y with h | h
        · right; left; omega
        · left; omega
      · right; right; exact h3


theorem mem_dedupL {α} [DecidableEq α] (x : α) : ∀ l : List α, x ∈ dedupL l ↔ x ∈ l
  | [] => by simp [dedupL]
  | y :: ys => by
    have ih := mem_dedupL x ys
    simp only [dedupL]
    split
    · rename_i h
      constructor
      · intro hx; exact List.mem_cons_of_mem _ (ih.1 hx)
      · intro hx
        rcases List.mem_cons.1 hx with rfl | hx
        · exact h
        · exact ih.2 hx
    · simp [ih]

theorem dedupL_map_some {α} [DecidableEq α] : ∀ l : List α, dedupL (l.map some) = (dedupL l).map some
  | [] => by simp [dedupL]
  | y :: ys => by
    have ih := dedupL_map_some ys
    simp only [List.map_cons, dedupL, ih]
    by_cases h : y ∈ dedupL ys
    · simp [h]
    · simp [h]

theorem filter_isSome_eq_map {α} : ∀ l : List (Option α), l.filter Option.isSome = (l.filterMap id).map some
  | [] => rfl
  | none :: xs => by simp [filter_isSome_eq_map xs]
  | some x :: xs => by simp [filter_isSome_eq_map xs]

end PonyVerif.Model.Q
