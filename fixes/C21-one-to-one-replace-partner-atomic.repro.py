"""One-to-one, column-less side: after a caught UnrepeatableReadError the attribute silently reads the NEW partner.
Attribute.db_set rewrites person.passport before it asks the previous partner (which raises)."""
import os, sqlite3, tempfile
from pony.orm import Database, Required, Optional, db_session, select
from pony.orm.core import UnrepeatableReadError
d = tempfile.mkdtemp(); fn = os.path.join(d, 'x.sqlite')
db = Database()
class Person(db.Entity):
    name = Required(str)
    passport = Optional('Passport')
class Passport(db.Entity):
    code = Required(str)
    person = Optional(Person)
db.bind('sqlite', fn, create_db=True); db.generate_mapping(create_tables=True)
with db_session:
    p = Person(name='John'); Passport(code='AAA', person=p)
w = sqlite3.connect(fn, isolation_level=None)
with db_session:
    person = Person[1]
    first = person.passport
    w.execute('DELETE FROM passport WHERE id = 1'); w.execute("INSERT INTO passport (id, code, person) VALUES (3, 'CCC', 1)")
    try: select(x for x in Passport if x.id >= 3)[:]
    except UnrepeatableReadError as e: print('re-fetch raised:', e)
    second = person.passport
    print('first', first, 'second', second, 'SAME' if second is first else '*** CHANGED (silent read after the error) ***')
import shutil; shutil.rmtree(d)
