from pony.orm import *
db = Database()
class F(db.Entity):
    gs = Set('G')
class G(db.Entity):
    fs = Set(F)
db.bind('sqlite', ':memory:')
db.generate_mapping(create_tables=True)
def show(o, attr):
    sd = o._vals_.get(attr)
    return None if sd is None else (sorted(map(repr, sd)), 'count', sd.count, 'added', sd.added, 'removed', sd.removed, 'full', sd.is_fully_loaded)
with db_session:
    f = F(); g = G(fs=[f]); g2 = G()
with db_session:
    f = F[1]; g = G[1]
    f.gs.remove(g)
    flush()
    print('after remove+flush: g.fs', show(g, G.fs), ' f.gs', show(f, F.gs))
    print('g.fs.count() =', g.fs.count(), ' len(g.fs) =', len(g.fs), ' is_empty', g.fs.is_empty())
    rollback()
with db_session:
    f = F[1]; g2 = G[2]
    f.gs.add(g2)
    flush()
    print('after add+flush: g2.fs', show(g2, G.fs))
    print('g2.fs.count() =', g2.fs.count(), ' len(g2.fs) =', len(g2.fs))
    rollback()
with db_session:
    f = F[1]; g = G[1]
    g.fs.remove(f)          # from the other side
    flush()
    print('other side: f.gs', show(f, F.gs), ' g.fs', show(g, G.fs))
    print('f.gs.count() =', f.gs.count(), ' len(f.gs) =', len(f.gs))
