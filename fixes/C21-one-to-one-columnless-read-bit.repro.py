import os, sqlite3
from pony.orm import *
from pony.orm import core
db = Database()
class Q(db.Entity):
    name = Required(str)
    one = Optional('O')
class O(db.Entity):
    q = Optional(Q)
    v = Required(int)
p='/verif/.work/c21o/o.sqlite'
if os.path.exists(p): os.remove(p)
db.bind('sqlite', p, create_db=True); db.generate_mapping(create_tables=True)
with db_session:
    q1 = Q(name='q1'); O(q=q1, v=1); O(v=2)
w = sqlite3.connect(p, isolation_level=None)
print('bits', Q._bits_.get(Q.one), Q._bits_except_volatile_.get(Q.one), O._bits_[O.q])
for label, reload in (('select O', lambda: select(o for o in O)[:]), ('select_by_sql O', lambda: O.select_by_sql('select * from O')), ('O[1].load', None)):
    w.execute('UPDATE O SET q = 1 WHERE id = 1')
    with db_session:
        q1 = Q[1]
        a = q1.one
        print(label, 'first', a, 'rbits Q1', q1._rbits_, 'O1 rbits', a._rbits_)
        w.execute('UPDATE O SET q = NULL WHERE id = 1')
        try:
            if reload: reload()
            else: a.load()
            b = q1.one
            print('   then', b, 'SAME' if a is b else '*** CHANGED SILENTLY ***')
        except core.UnrepeatableReadError as e: print('   UnrepeatableReadError', e)
print('--- O loaded first, then Q1.one served from the identity map')
w.execute('UPDATE O SET q = 1 WHERE id = 1')
with db_session:
    q1 = Q[1]
    select(o for o in O)[:]
    a = q1.one
    print('first', a, 'rbits Q1', q1._rbits_, 'O1 rbits', a._rbits_)
    w.execute('UPDATE O SET q = NULL WHERE id = 1')
    try:
        O.select_by_sql('select * from O')
        b = q1.one
        print('   then', b, 'SAME' if a is b else '*** CHANGED SILENTLY ***')
    except core.UnrepeatableReadError as e: print('   UnrepeatableReadError', e)
