from pony.orm import *
db = Database()
class A(db.Entity):
    bs = Set('B')
class B(db.Entity):
    a = Optional(A)
    v = Optional(int)
db.bind('sqlite', ':memory:')
db.generate_mapping(create_tables=True)
def t(name, f):
    with db_session:
        a = A(); b = B(a=a, v=1)
        try: print(name, '->', f(a, b))
        except Exception as e: print(name, 'raised', type(e).__name__, e)
        rollback()
t('select gen      ', lambda a, b: select(x for x in B if x.a == a)[:])
t('a.bs.select()   ', lambda a, b: a.bs.select()[:])
t('B.select(a=a)   ', lambda a, b: B.select(a=a)[:])
t('B.get(a=a)      ', lambda a, b: B.get(a=a))
t('B.exists(a=a)   ', lambda a, b: B.exists(a=a))
t('count gen       ', lambda a, b: count(x for x in B if x.a == a))
t('select().count()', lambda a, b: B.select(lambda x: x.a == a).count())
t('exists gen      ', lambda a, b: exists(x for x in B if x.a == a))
t('bulk delete     ', lambda a, b: (delete(x for x in B if x.a == a), B.select().count()))
t('a in select     ', lambda a, b: select(x.a for x in B if x.a == a)[:])
t('in list         ', lambda a, b: select(x for x in B if x.a in [a])[:])
