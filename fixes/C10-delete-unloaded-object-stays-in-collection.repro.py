from pony.orm import *
db = Database()
class P(db.Entity):
    items = Set('X')
class Y(db.Entity):
    x = Optional('X')
class X(db.Entity):
    parent = Optional(P)            # many-to-one, declared BEFORE the one-to-one below
    y = Optional(Y, column='y')     # one-to-one whose column is in X's table
    zs = Set('Z')
class Z(db.Entity):
    x = Required(X)
db.bind('sqlite', ':memory:')
db.generate_mapping(create_tables=True)
with db_session:
    p = P(); x = X(parent=p); z = Z(x=x)
with db_session:
    p = P[1]; z = Z[1]
    x = z.x                         # known only through z's foreign key: its row is not loaded
    print('x loaded attrs:', sorted(a.name for a in x._vals_))
    x.delete()
    print('p.items right after delete:', list(p.items), ' len', len(p.items), ' count', p.items.count(), ' x in p.items', x in p.items)
    z.delete()
    flush()
    print('after flush:', list(p.items), len(p.items))
with db_session:
    print('row of x in a new session:', X.get(id=1))
