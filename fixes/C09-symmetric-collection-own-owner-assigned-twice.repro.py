"""C09 / C12 (known finding committed-links-differ:symmetric-many-to-many-self-membership):
in a symmetric many-to-many relationship an assignment (`p.friends = [...]`, `p.friends.clear()`) that takes the collection's own
owner out of it, or puts it back, records the change twice in the SAME SetData: once in reverse_remove() / reverse_add() (called
for the owner as the item: the "other end" is this very collection) and once more in the tail of Set.__set__.
  silent:  p.friends.add(p); p.friends.clear(); p.friends += [p]; commit   -> the session shows {p}, no link row is inserted
  loud:    (p in p.friends committed) p.friends.remove(p); p.friends = [p] -> IntegrityError at the flush (INSERT of the existing row)
Run with PYTHONPATH=<tree>: prints FAIL on the unrepaired tree, PASS with the patch."""
import os, sys, sqlite3, tempfile
from pony.orm import *

path = tempfile.mktemp(suffix='.sqlite')
db = Database()
class P(db.Entity):
    id = PrimaryKey(int)
    friends = Set('P', reverse='friends')
db.bind('sqlite', path, create_db=True); db.generate_mapping(create_tables=True)

def rows():
    c = sqlite3.connect(path)
    try: return sorted(c.execute('select * from P_friends').fetchall())
    finally: c.close()

problems = []
try:
    with db_session: P(id=1); P(id=2)
    with db_session:
        p = P[1]
        p.friends.add(p); p.friends.clear(); p.friends += [p]
        have = sorted(x.id for x in p.friends)
    if [(1, 1)] != rows() or have != [1]: problems.append('add; clear; +=  : session has %r, database has %r, expected [(1, 1)]' % (have, rows()))
    with db_session: db.execute('delete from P_friends')
    with db_session:
        p = P[1]
        p.friends.add(p); p.friends = []; p.friends.add(p)
    if [(1, 1)] != rows(): problems.append('add; = []; add : database has %r, expected [(1, 1)]' % rows())
    with db_session: db.execute('delete from P_friends'); db.execute('insert into P_friends values (1, 1)')
    try:
        with db_session:
            p = P[1]
            p.friends.remove(p); p.friends = [p]
        if [(1, 1)] != rows(): problems.append('remove; = [p]  : database has %r, expected [(1, 1)]' % rows())
    except Exception as e:
        problems.append('remove; = [p]  : raised %s: %s' % (type(e).__name__, e))
finally:
    db.disconnect()
    try: os.remove(path)
    except OSError: pass
print('FAIL' if problems else 'PASS')
for x in problems: print('  ' + x)
sys.exit(1 if problems else 0)
