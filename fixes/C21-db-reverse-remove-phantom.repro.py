import os, sqlite3
from pony.orm import *
from pony.orm import core
db = Database()
class P(db.Entity):
    name = Required(str)
    kids = Set('C')
    tags = Set('T')
class C(db.Entity):
    v = Required(int)
    parent = Optional(P)
class T(db.Entity):
    ps = Set(P)
p='/verif/.work/c22x/r.sqlite'
if os.path.exists(p): os.remove(p)
db.bind('sqlite', p, create_db=True); db.generate_mapping(create_tables=True)
with db_session:
    p1 = P(name='p1'); p2 = P(name='p2'); C(v=1, parent=p1); C(v=2, parent=p1); T(ps=[p1])
w = sqlite3.connect(p, isolation_level=None)
def attempt(label, observe, again):
    w.execute('UPDATE C SET parent=1'); 
    with db_session:
        p1 = P[1]
        a = observe(p1)
        w.execute('UPDATE C SET parent=2 WHERE id=1')
        try:
            select(c for c in C)[:]       # re-fetch the rows
            b = again(p1)
            print('%-22s first %r then %r %s' % (label, a, b, 'SAME' if a == b else '*** CHANGED SILENTLY ***'))
        except core.UnrepeatableReadError as e: print('%-22s first %r then UnrepeatableReadError' % (label, a))
attempt('len', lambda p: len(p.kids), lambda p: len(p.kids))
attempt('iterate', lambda p: sorted(c.id for c in p.kids), lambda p: sorted(c.id for c in p.kids))
attempt('count', lambda p: p.kids.count(), lambda p: p.kids.count())
attempt('len then count', lambda p: len(p.kids), lambda p: p.kids.count())
attempt('len then iterate', lambda p: len(p.kids), lambda p: sorted(c.id for c in p.kids))
attempt('contains other', lambda p: (list(p.kids.select(lambda c: c.id==2)) and len(p.kids)), lambda p: len(p.kids))
attempt('is_empty/bool', lambda p: (bool(p.kids), len(p.kids)), lambda p: (bool(p.kids), len(p.kids)))
