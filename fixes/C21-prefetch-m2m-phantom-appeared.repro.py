import os, sqlite3
from pony.orm import *
from pony.orm import core
db = Database()
class G(db.Entity):
    name = Required(str)
    tags = Set('T')
    kids = Set('K')
class T(db.Entity):
    gs = Set(G)
class K(db.Entity):
    g = Optional(G)
p='/verif/.work/c21p/p.sqlite'
if os.path.exists(p): os.remove(p)
db.bind('sqlite', p, create_db=True); db.generate_mapping(create_tables=True)
with db_session:
    g1 = G(name='g1'); t1 = T(gs=[g1]); t2 = T(); K(g=g1); K()
w = sqlite3.connect(p, isolation_level=None)
tab = [r[0] for r in w.execute("select name from sqlite_master where type='table'")]; print(tab)
m2m = 'G_T'; cols = [r[1] for r in w.execute('pragma table_info(%s)' % m2m)]; print(m2m, cols)
def attempt(label, observe, change, undo, refetch):
    w.execute(undo[0], undo[1]) if undo else None
    with db_session:
        g1 = G[1]
        a = observe(g1)
        w.execute(*change)
        try:
            refetch()
            b = observe(g1)
            print('%-34s first %r then %r %s' % (label, a, b, 'SAME' if a == b else '*** CHANGED SILENTLY ***'))
        except core.UnrepeatableReadError as e: print('%-34s first %r then UnrepeatableReadError' % (label, a))
ins = ('INSERT INTO %s (%s, %s) VALUES (1, 2)' % (m2m, cols[0], cols[1]) if cols[0].lower().startswith('g') else 'INSERT INTO %s (%s, %s) VALUES (2, 1)' % (m2m, cols[0], cols[1]), ())
dele = ('DELETE FROM %s WHERE %s = 2' % (m2m, [c for c in cols if c.lower().startswith('t')][0]), ())
attempt('m2m iterate + prefetch(G.tags)', lambda g: sorted(t.id for t in g.tags), ins, dele, lambda: select(g for g in G).prefetch(G.tags)[:])
attempt('m2m iterate + prefetch(T)', lambda g: sorted(t.id for t in g.tags), ins, dele, lambda: select(g for g in G).prefetch(T)[:])
attempt('m2m len + prefetch(G.tags)', lambda g: len(g.tags), ins, dele, lambda: select(g for g in G).prefetch(G.tags)[:])
attempt('m2m delete link + prefetch', lambda g: sorted(t.id for t in g.tags), ('DELETE FROM %s' % m2m, ()), ('INSERT OR IGNORE INTO %s (%s, %s) VALUES (1, 1)' % (m2m, cols[0], cols[1]), ()), lambda: select(g for g in G).prefetch(G.tags)[:])
w.execute('INSERT OR IGNORE INTO %s (%s, %s) VALUES (1, 1)' % (m2m, cols[0], cols[1]))
attempt('o2m iterate + prefetch(G.kids)', lambda g: sorted(k.id for k in g.kids), ('UPDATE K SET g = 1 WHERE id = 2', ()), ('UPDATE K SET g = NULL WHERE id = 2', ()), lambda: select(g for g in G).prefetch(G.kids)[:])
