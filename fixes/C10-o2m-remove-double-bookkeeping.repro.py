from pony.orm import *
db = Database()
class A(db.Entity):
    bs = Set('B')
class B(db.Entity):
    a = Optional(A)
db.bind('sqlite', ':memory:')
db.generate_mapping(create_tables=True)
with db_session:
    a = A(); b1 = B(); b2 = B()
    sd = a._vals_[A.bs]
    print('init', sd.count, len(sd))
    a.bs.add([b1, b2])
    print('after add', sd.count, len(sd), sd.added, sd.removed)
    a.bs.remove(b1)
    print('after remove', sd.count, len(sd), sd.added, sd.removed)
    print('len', len(a.bs), 'count', a.bs.count(), 'is_empty', a.bs.is_empty())
    flush()
    print('after flush len', len(a.bs), 'count', a.bs.count())
with db_session:
    a = A(); b1 = B(); b2 = B()
    flush()
    a.bs.add([b1, b2])
    sd = a._vals_[A.bs]
    print('flushed: after add', sd.count, len(sd), sd.added, sd.removed)
    a.bs.remove(b1)
    print('after remove', sd.count, len(sd), sd.added, sd.removed)
    print('len', len(a.bs), 'count', a.bs.count())
with db_session:
    a = A(); b1 = B(); b2 = B()
    b1.a = a
    sd = a._vals_[A.bs]
    print('via ref: ', sd.count, len(sd), sd.added, sd.removed)
    a.bs.add(b2)
    print('add b2: ', sd.count, len(sd), sd.added, sd.removed)
    a.bs = [b1]
    print('set [b1]: ', sd.count, len(sd), sd.added, sd.removed)
