from pony.orm import *
db = Database()
class A(db.Entity):
    bs = Set('B')
class B(db.Entity):
    a = Optional(A)
db.bind('sqlite', ':memory:')
db.generate_mapping(create_tables=True)
with db_session:
    a = A(); b0 = B(a=a)
with db_session:
    a = A[1]; b = B()
    a.bs.add(b)
    sd = a._vals_[A.bs]
    print('after add', sd.count, set(sd), sd.added, sd.removed, sd.is_fully_loaded)
    a.bs.remove(b)
    print('after remove', sd.count, set(sd), sd.added, sd.removed)
    print('count', a.bs.count(), 'len', len(a.bs))
with db_session:
    a = A[1]; b = B(a=a)
    sd = a._vals_[A.bs]
    print('after B(a=a)', sd.count, set(sd), sd.added, sd.removed, sd.is_fully_loaded)
    a.bs.remove(b)
    print('after remove', sd.count, set(sd), sd.added, sd.removed)
    print('count', a.bs.count(), 'len', len(a.bs))
with db_session:
    a = A[1]; b0 = B[1]
    print('count0', a.bs.count())
    a.bs.remove(b0)
    sd = a._vals_[A.bs]
    print('after remove', sd.count, set(sd), sd.added, sd.removed)
    print('count', a.bs.count(), 'len', len(a.bs))
