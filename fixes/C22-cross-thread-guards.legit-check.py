# single-thread behaviours that must keep working with the guards
import pony
from pony.orm import *
from pony.orm import core
db = Database(); db2 = Database()
class P(db.Entity):
    name = Required(str); n = Required(int); lz = Optional(str, lazy=True); tags = Set('T'); data = Optional(Json)
class T(db.Entity):
    ps = Set(P)
class Q(db2.Entity):
    x = Required(int)
db.bind('sqlite', ':memory:'); db.generate_mapping(create_tables=True)
db2.bind('sqlite', ':memory:'); db2.generate_mapping(create_tables=True)
with db_session:
    p = P(name='a', n=1, lz='L', data={'k': [1]}); t = T(ps=[p]); q = Q(x=1)
with db_session:
    p = P[1]
    with db_session:            # nested session is the same session
        p.n = 2; p.set(name='b'); assert p.lz == 'L'; assert p.tags.count() == 1; assert not p.tags.is_empty()
    commit(); p.n = 3           # after commit inside the session
    p.tags.clear(); p.tags.add(T[1]); p.tags.remove(T[1]); p.tags = [T[1]]
    p.data['k'].append(2)       # tracked mutation -> _attr_changed_
    p.flush()
    Q[1].x = 5                  # second database in the same session
    t2 = T(); t2.delete()
@db_session
def gen():
    p = P[1]; n = p.n; yield n; p = P[1]; p.n = n + 1; commit(); yield n + 1
g = gen(); a = next(g)
with db_session: P[1].name = 'c'      # another session while the generator's session is suspended
b = next(g); assert b == a + 1
@db_session(retry=1)
def f(): P[1].n = 10
f()
# interactive mode: no db_session in the main thread
pony.MODE = 'INTERACTIVE'
p = P[1]; p.n = 11; p.tags.count(); p.delete(); rollback()
pony.MODE = 'CONSOLE'
# object used after its session is over still gives the session-is-over error, not the new one
with db_session: p = P[1]
try: p.n = 1; print('FAIL no error')
except core.DatabaseSessionIsOver as e: print('after session:', type(e).__name__)
print('legit behaviours OK', pony.__file__)
