"""C10 (reads inside a session see the session's own changes) - key coll-iter:o2m, observed raised:AssertionError.
Set.__set__ (collection assignment / clear) of a ONE-TO-MANY collection calls reverse.__set__(item, ...) for every item that
leaves or enters; that call goes through reverse_remove() / reverse_add() of THIS collection and does all the bookkeeping
(items, count, added, removed).  The tail of Set.__set__ then records to_add / to_remove a second time: an item that was only
added in this session (never saved) ends up in `removed`.  When it comes back through its reference (b.a = a), reverse_add()
takes it for a saved item whose removal is cancelled: it sits in the collection without being in `added`, and reading the
collection fails on `assert item._wbits_ is not None` (Set.copy):
    b = B(); a.bs.add(b); a.bs.clear(); b.a = a; list(a.bs)      -> AssertionError  (also with a self-reference: found by
    ./check C10 --tier thorough, VERIF_SEED=3: e.children.add(e); e.children = []; e.parent = e; E(parent=e); list(e.children))
The same double recording marks a committed item whose removal is cancelled by an assignment as `added`.
(remove() got the same repair in 69b7a62 / dd63b73, add() in 43e0cfb, the symmetric own-owner case of __set__ in e8061ac - the
two lines of this patch subsume the latter.)
Run with PYTHONPATH=<tree>: FAIL on the unrepaired tree, PASS with the patch."""
import os, sys, tempfile
from pony.orm import *

path = tempfile.mktemp(suffix='.sqlite')
db = Database()
class A(db.Entity):
    id = PrimaryKey(int)
    bs = Set('B')
class B(db.Entity):
    id = PrimaryKey(int)
    a = Optional(A)
db.bind('sqlite', path, create_db=True); db.generate_mapping(create_tables=True)
problems = []
def case(name, f, expected):
    try:
        with db_session:
            a = A[1]; f(a)
            got = (sorted(x.id for x in a.bs), a.bs.count(), len(a.bs))
            sd = a._vals_[A.bs]; never_saved_in_removed = [x.id for x in (sd.removed or ()) if x._status_ == 'created']
            rollback()
        if got != (expected, len(expected), len(expected)): problems.append('%s: items/count/len %r, expected %r' % (name, got, expected))
        if never_saved_in_removed: problems.append('%s: never-saved items %r recorded in setdata.removed' % (name, never_saved_in_removed))
    except Exception as e:
        problems.append('%s: raised %s %s' % (name, type(e).__name__, e))
try:
    with db_session: A(id=1); B(id=1, a=1); B(id=2)
    def f1(a): b = B(id=9); a.bs.add(b); a.bs.clear(); b.a = a
    case('new b: add; clear; b.a = a', f1, [9])
    def f2(a): b = B(id=9); a.bs = [B[1], b]; a.bs = [B[1]]
    case('new b: assign with it; assign without it', f2, [1])
    def f3(a): b1 = B[1]; a.bs.remove(b1); a.bs = [b1]
    case('committed b1: remove; assign [b1]', f3, [1])
finally:
    db.disconnect()
    try: os.remove(path)
    except OSError: pass
print('FAIL' if problems else 'PASS')
for x in problems: print('  ' + x)
sys.exit(1 if problems else 0)
