from pony.orm import *
db = Database()
class E(db.Entity):
    id = PrimaryKey(int)
    kids = Set('E', reverse='parent', cascade_delete=True)
    parent = Optional('E', reverse='kids')
db.bind('sqlite', ':memory:')
db.generate_mapping(create_tables=True)
def show(o):
    sd = o._vals_.get(E.kids)
    return None if sd is None else (sorted(x.id for x in sd), 'count', sd.count, 'added', sd.added, 'removed', sd.removed, 'full', sd.is_fully_loaded)
with db_session:
    e1 = E(id=1); flush(); e2 = E(id=2, parent=e1); flush()
    e2.kids.add([e1, e2])
with db_session:
    print('db:', db.select('select id, parent from E'))
with db_session:
    e1 = E[1]
    e1.kids = [e1]
    print('after e1.kids=[e1]: e1', show(e1), ' e2', show(E[2]))
    e2 = E[2]
    e1.kids.add(e2)
    print('after e1.kids.add(e2): e1', show(e1), ' e2', show(e2))
    print('e2.kids.count() =', e2.kids.count(), ' len =', len(e2.kids), ' e2.parent', e2.parent, 'e1.parent', e1.parent)
