#!/bin/sh
set -e
cd "$(dirname "$0")/lean"
lake build PonyVerif driver
