#!/bin/sh
# Build the framework from files on disk only (offline): regenerate the translated definitions and the driver,
# then compile the Lean library (all models, lemmas, property theorems) and the driver executable.
cd "$(dirname "$0")"
/venv/bin/python - <<'PY'
import sys; sys.path.insert(0, 'harness')
import framework, py2lean
print(sorted(framework.regenerate_all().keys()))
framework.generate_driver()
PY
cd lean
lake build driver || echo "setup: driver build failed (checks fall back to per-property drivers)"
lake build PonyVerif || echo "setup: some Lean modules failed to build (each check rebuilds and reports what it needs)"
exit 0
